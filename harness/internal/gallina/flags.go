package gallina

import (
	"flag"
	"os"
)

// Flags is the standard harness command line: -out dir -tier quick|thorough -seed N -scale K.
type Flags struct {
	Out      string
	Tier     string
	Seed     uint64
	Scale    int
	Variants string
}

func ParseFlags() Flags {
	var f Flags
	flag.StringVar(&f.Out, "out", ".", "output directory for cases_*.v and meta.json")
	flag.StringVar(&f.Tier, "tier", "quick", "quick|thorough")
	flag.Uint64Var(&f.Seed, "seed", 1, "PRNG seed")
	flag.IntVar(&f.Scale, "scale", 1, "multiply the number of generated cases (escalated search)")
	flag.StringVar(&f.Variants, "variants", "", "comma separated paths of the harness built under other build tags")
	flag.Parse()
	if err := os.MkdirAll(f.Out, 0o755); err != nil {
		panic(err)
	}
	return f
}

// Count picks the case count for the tier, times scale.
func (f Flags) Count(quick, thorough int) int {
	n := quick
	if f.Tier == "thorough" {
		n = thorough
	}
	return n * f.Scale
}

// Package gen: single splitmix64 PRNG from which every random choice of a harness derives.
package gen

import (
	"os"
	"strconv"
)

type Rand struct{ s uint64 }

func New(seed uint64) *Rand { return &Rand{s: seed} }

// Seed returns VERIF_SEED (default 1).
func Seed() uint64 {
	if v := os.Getenv("VERIF_SEED"); v != "" {
		if n, err := strconv.ParseInt(v, 10, 64); err == nil {
			return uint64(n)
		}
	}
	return 1
}

// Fork derives an independent generator for case index i so that a case is replayable from (seed, i).
func Fork(seed uint64, i int) *Rand {
	// Both seed and index go through the splitmix finalizer first: the generator steps its
	// state by the golden-ratio constant, so deriving the state as seed ^ G*(i+1) would make
	// the streams of neighbouring indices shifted copies of each other.
	a := New(seed).U64()
	b := New(uint64(i) + 0x632BE59BD9B4E019).U64()
	r := New(a ^ (b<<1 | b>>63))
	r.U64()
	return r
}

func (r *Rand) U64() uint64 {
	r.s += 0x9E3779B97F4A7C15
	z := r.s
	z = (z ^ (z >> 30)) * 0xBF58476D1CE4E5B9
	z = (z ^ (z >> 27)) * 0x94D049BB133111EB
	return z ^ (z >> 31)
}

// Intn returns a value in [0,n).
func (r *Rand) Intn(n int) int {
	if n <= 0 {
		return 0
	}
	return int(r.U64() % uint64(n))
}

// Range returns a value in [lo,hi].
func (r *Rand) Range(lo, hi int64) int64 {
	if hi <= lo {
		return lo
	}
	return lo + int64(r.U64()%uint64(hi-lo+1))
}

func (r *Rand) Bool() bool { return r.U64()&1 == 1 }

// Chance returns true with probability num/den.
func (r *Rand) Chance(num, den int) bool { return r.Intn(den) < num }

func (r *Rand) Float() float64 { return float64(r.U64()>>11) / (1 << 53) }

// PickI64 picks one of the given values.
func (r *Rand) PickI64(vs ...int64) int64 { return vs[r.Intn(len(vs))] }

func Pick[T any](r *Rand, vs []T) T { return vs[r.Intn(len(vs))] }

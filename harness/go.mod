module verif/harness

go 1.25.10

require github.com/prometheus/prometheus v0.0.0

replace github.com/prometheus/prometheus => /repo
